"""Mutation sweep with the seeded demonstrations as dynamic oracles (a development aid, NOT part of any check).

For every syntactic mutant of the anchored sources (comparison / arithmetic / boolean operator swaps, constants +-1, index +-1, deleted
statements): run the quick checks of the properties anchored in the mutated file. If all of them stay silent, run the demonstrations
(seeded/<id>/demo.py) of those properties against the mutant: a demonstration that fails shows the mutant breaks the property, i.e. the
static checks missed a real violation. Survivors that no demonstration can tell from the original are undecided (equivalent mutants,
or breaks that none of the stored scenarios exercises) and are only counted.

usage: tools/mutsweep.py [--files f1,f2] [--per-func N] [--seed S] [--jobs J] [--out FILE]
"""
import argparse
import ast
import concurrent.futures as cf
import copy
import json
import os
import random
import shutil
import subprocess
import sys
import tempfile
from pathlib import Path

V = Path(__file__).resolve().parent.parent
REPO = Path(os.environ.get("HDC_REPO", "/repo"))

FILE_PROPS = {}
for line in (V / "properties.jsonl").read_text().splitlines():
    d = json.loads(line)
    for f in d["anchors"]["files"]:
        FILE_PROPS.setdefault(f, []).append(d["id"])
SKIP_FILES = {"hdc/algo/vendor/numba_scipy/special/overloads.py", "hdc/algo/vendor/numba_scipy/special/signatures.py"}

CMP = {ast.Lt: [ast.LtE, ast.Gt], ast.LtE: [ast.Lt], ast.Gt: [ast.GtE, ast.Lt], ast.GtE: [ast.Gt], ast.Eq: [ast.NotEq], ast.NotEq: [ast.Eq],
       ast.Is: [ast.IsNot], ast.IsNot: [ast.Is]}
BIN = {ast.Add: [ast.Sub], ast.Sub: [ast.Add], ast.Mult: [ast.Div], ast.Div: [ast.Mult]}


def mutants_of(fn: ast.FunctionDef):
    """Yield (description, mutate(node_copy_root) -> None) pairs addressed by a path of child indices."""
    nodes = list(ast.walk(fn))
    out = []
    for idx, n in enumerate(nodes):
        if isinstance(n, ast.Compare) and len(n.ops) == 1 and type(n.ops[0]) in CMP:
            for new in CMP[type(n.ops[0])]:
                out.append((idx, f"{type(n.ops[0]).__name__}->{new.__name__}", ("cmp", new)))
        elif isinstance(n, ast.BinOp) and type(n.op) in BIN:
            for new in BIN[type(n.op)]:
                out.append((idx, f"{type(n.op).__name__}->{new.__name__}", ("bin", new)))
        elif isinstance(n, ast.BoolOp):
            out.append((idx, "and<->or", ("bool", None)))
        elif isinstance(n, ast.UnaryOp) and isinstance(n.op, ast.Not):
            out.append((idx, "drop not", ("not", None)))
        elif isinstance(n, ast.Constant) and isinstance(n.value, (int, float)) and not isinstance(n.value, bool):
            out.append((idx, f"const {n.value}->{n.value + 1}", ("const", n.value + 1)))
            if n.value != 0:
                out.append((idx, f"const {n.value}->{n.value - 1}", ("const", n.value - 1)))
        elif isinstance(n, ast.Subscript) and isinstance(n.slice, (ast.Name, ast.BinOp)) and isinstance(n.ctx, ast.Load):
            out.append((idx, "index+1", ("idx", 1)))
        elif isinstance(n, (ast.Assign, ast.AugAssign)) and not isinstance(n, ast.FunctionDef):
            out.append((idx, "delete statement", ("del", None)))
        elif isinstance(n, (ast.Continue, ast.Break)):
            out.append((idx, f"{type(n).__name__}->pass", ("pass", None)))
    return out


def apply(fn: ast.FunctionDef, idx: int, op):
    nodes = list(ast.walk(fn))
    n = nodes[idx]
    kind, arg = op
    if kind == "cmp":
        n.ops = [arg()]
    elif kind == "bin":
        n.op = arg()
    elif kind == "bool":
        n.op = ast.Or() if isinstance(n.op, ast.And) else ast.And()
    elif kind == "not":
        # replace `not x` by `x` in the parent
        for p in nodes:
            for fld, val in ast.iter_fields(p):
                if val is n:
                    setattr(p, fld, n.operand)
                elif isinstance(val, list) and any(v is n for v in val):
                    setattr(p, fld, [n.operand if v is n else v for v in val])
    elif kind == "const":
        n.value = arg
    elif kind == "idx":
        n.slice = ast.BinOp(left=n.slice, op=ast.Add(), right=ast.Constant(value=arg))
    elif kind in ("del", "pass"):
        for p in nodes:
            for fld in ("body", "orelse", "finalbody"):
                blk = getattr(p, fld, None)
                if isinstance(blk, list) and any(v is n for v in blk):
                    setattr(p, fld, [ast.copy_location(ast.Pass(), n) if v is n else v for v in blk])
    ast.fix_missing_locations(fn)


def build(args):
    rng = random.Random(args.seed)
    files = args.files.split(",") if args.files else sorted(f for f in FILE_PROPS if f not in SKIP_FILES)
    items = []
    for f in files:
        src = (REPO / f).read_text()
        tree = ast.parse(src)
        funcs = [(n.name, n) for n in tree.body if isinstance(n, ast.FunctionDef)]
        funcs += [(f"{c.name}.{m.name}", m) for c in tree.body if isinstance(c, ast.ClassDef) for m in c.body if isinstance(m, ast.FunctionDef)]
        for q, fn in funcs:
            ms = mutants_of(fn)
            rng.shuffle(ms)
            for idx, desc, op in ms[: args.per_func]:
                items.append((f, q, idx, desc, op))
    return items


def run(item):
    f, q, idx, desc, op = item
    tmp = Path(tempfile.mkdtemp(prefix="mut_"))
    try:
        shutil.copytree(REPO / "hdc", tmp / "hdc", ignore=shutil.ignore_patterns("__pycache__"))
        tree = ast.parse((REPO / f).read_text())
        target = None
        for n in tree.body:
            if isinstance(n, ast.FunctionDef) and n.name == q:
                target = n
            elif isinstance(n, ast.ClassDef) and q.startswith(n.name + "."):
                for m in n.body:
                    if isinstance(m, ast.FunctionDef) and m.name == q.split(".", 1)[1]:
                        target = m
        line = list(ast.walk(target))[idx].lineno if hasattr(list(ast.walk(target))[idx], "lineno") else 0
        apply(target, idx, op)
        try:
            new_src = ast.unparse(tree)
            compile(new_src, f, "exec")
        except Exception:  # noqa: BLE001
            return item, "invalid", {}
        (tmp / f).write_text(new_src)
        props = FILE_PROPS[f]
        env = dict(os.environ, VERIF_EVIDENCE_DIR=str(tmp / "ev"))
        fired = {}
        for pid in props:
            c = subprocess.run([str(V / "check"), pid, "--repo", str(tmp)], capture_output=True, text=True, cwd=V, env=env)
            if c.returncode != 0:
                fired[pid] = c.returncode
                break
        if fired:
            return item, "static", {"by": fired, "line": line}
        # dynamic oracles
        failed = {}
        denv = dict(os.environ, PYTHONPATH=str(tmp), NUMBA_CACHE_DIR=str(tmp / "nbc"), PYTHONDONTWRITEBYTECODE="1")
        for pid in props:
            for demo in sorted((V / "seeded").glob(f"{pid}?/demo.py")):
                try:
                    r = subprocess.run(["/venv/bin/python", str(demo)], cwd=tmp, env=denv, capture_output=True, text=True, timeout=args_timeout)
                except subprocess.TimeoutExpired:
                    continue
                if r.returncode != 0:
                    failed[demo.parent.name] = (r.stdout + r.stderr).strip().splitlines()[-1][:200] if (r.stdout + r.stderr).strip() else ""
                    break
            if failed:
                break
        if failed:
            return item, "MISS", {"demo": failed, "line": line}
        return item, "undecided", {"line": line}
    finally:
        shutil.rmtree(tmp, ignore_errors=True)


args_timeout = 240


def main():
    ap = argparse.ArgumentParser()
    ap.add_argument("--files")
    ap.add_argument("--per-func", type=int, default=6)
    ap.add_argument("--seed", type=int, default=1)
    ap.add_argument("--jobs", type=int, default=16)
    ap.add_argument("--out", default="/tmp/mutsweep.json")
    a = ap.parse_args()
    items = build(a)
    print(len(items), "mutants")
    stats = {}
    res = []
    with cf.ThreadPoolExecutor(a.jobs) as ex:
        for item, st, info in ex.map(run, items):
            stats[st] = stats.get(st, 0) + 1
            f, q, idx, desc, op = item
            res.append(dict(file=f, func=q, idx=idx, desc=desc, status=st, info=info))
            if st == "MISS":
                print("MISS", f, q, f"line {info.get('line')}", desc, info["demo"])
                sys.stdout.flush()
    print(stats)
    Path(a.out).write_text(json.dumps(res, indent=1))


if __name__ == "__main__":
    main()

"""Debug: dump with arrays kept atomic. usage: tools/dump2.py hdc.algo.ops.ws2dwcv ws2dwcv"""
import sys, ast
from pathlib import Path
sys.path.insert(0, str(Path(__file__).resolve().parent.parent))
from sa.core import Repo
from sa.symb import StoreCollector
r = Repo()
fn = r.func(sys.argv[1], sys.argv[2])
sc = StoreCollector(fn, sys.argv[1], loop_atoms_by_name=True, strict=False, keep_arrays=True).run()
ev = []
for s in sc.stores:
    ev.append((s.seq, f"STORE L{s.line} {s.arr}[{s.idx_key}] {'+=' if s.aug else '='} {s.rhs.key()[:170]}   | {s.region.label()} | {list(s.guards)}"))
for n, ds in sc.scalars.items():
    for d in ds:
        ev.append((d.seq, f"SCALAR L{d.stmt.lineno} {n} = {d.rhs.key()[:170]}  | {d.region.label()} | {list(d.guards)}"))
for n, ds in sc.arrays_assigned.items():
    for (rr, st, g, seq) in ds:
        ev.append((seq, f"ARRAY L{st.lineno} {n} := {rr.key()[:170]} | {list(g)}"))
for c in sc.calls:
    ev.append((c.seq, f"CALL L{c.stmt.lineno} {c.func}({c.args}) | {list(c.guards)}"))
for e in sc.exits:
    ev.append((e.seq, f"EXIT L{e.stmt.lineno} {e.kind} {e.value.key()[:100] if e.value is not None else ''} | {list(e.guards)}"))
for _, t in sorted(ev):
    print(t)
print("arrays", sorted(sc.arrays))
